"""Contracts of the manifest builders (C12, C10, C03): Rpms.add, Modules.add, ExtraFiles.add.

Each `add` is verified against: functional postcondition at the addressed cell, FRAME (an arbitrary other cell --
Skolemised observer keys -- is unchanged: this is the universally quantified "changes only the addressed entry"),
and refusal (ValueError/TypeError, exactly under the documented conditions, manifest unchanged).
The manifest is an open symbolic nested dict (unbounded size); assumption: tree-shaped (no aliased sub-dicts)."""
import copy

import z3

from pyvc import sym, concretise
from pyvc.sym import And, Or, Not, Implies, If, eq, SV, is_none, is_str, truthy
from pyvc.engine import SymDict, ExcVal, Obj, Entry
from pyvc.verify import Contract, Outcome, native_call
from .sections import _veq

CATEGORIES = ["binary", "debug", "source"]
ABSENT = "<absent>"


def _str(name):
    return SV(sym.Val.VStr(z3.Const(name, sym.S)))


def lookup_path(E, d, keys):
    """walk nested symbolic dicts; returns the leaf value or ABSENT (forks on presence)"""
    cur = d
    for i, k in enumerate(keys):
        cur = E.models.as_dict(cur) if not isinstance(cur, SymDict) else cur
        if cur is None:
            return ABSENT
        e = E.models.sd_lookup(cur, k)
        if not E.models.sd_present(e):
            return ABSENT
        cur = e.value
    return cur


class RpmsAdd(Contract):
    name = "productmd.rpms.Rpms.add"
    key = "meth:rpms.Rpms.add"
    PARAMS = ("variant", "arch", "nevra", "path", "sigkey", "category", "srpm_nevra")

    def __init__(self, src, T):
        self.src, self.T = src, T

    def requires(self, a):
        return And(is_str(a["variant"]), is_str(a["nevra"]), is_str(a["path"]), Or(is_none(a["sigkey"]), is_str(a["sigkey"])),
                   Or(is_none(a["srpm_nevra"]), is_str(a["srpm_nevra"])), is_str(a["arch"]), is_str(a["category"]))

    def setup(self, E):
        m = E.instantiate(("rpms", "Rpms"))
        rpms = SymDict("rpms", closed=False)
        rpms.json = True
        rpms.shape = ("dict", ("dict", ("dict", None)))      # variant -> arch -> srpm -> {nevra: entry}
        m.fields["rpms"] = rpms
        a = {}
        for p in self.PARAMS:
            v = SV(z3.Const("arg.%s" % p, sym.Val))
            E.assume(concretise.wellformed(v))
            a[p] = v
        E.assume(self.requires(a))
        return {"m": m, "a": a, "rpms": rpms, "mark": len(E.path.effects)}

    def call(self, E, st):
        a = st["a"]
        return E.call(E.getattr_(st["m"], "add"), [a[p] for p in self.PARAMS])

    def _ok(self, a, g1, g2, pat, stripped1, stripped2):
        """the documented acceptance condition of Rpms.add"""
        T = self.T
        arch_ok = And(sym.isin(a["arch"], T.RPM_ARCHES), Not(sym.isin(a["arch"], ["src", "nosrc"])))
        cat_ok = sym.isin(a["category"], CATEGORIES)
        path_ok = Not(sym.startswith(a["path"], "/"))
        nevra_ok = And(sym.contains(a["nevra"], ":"), sym.matches(pat, stripped1))
        is_source = eq(a["category"], "source")
        srpm_none = is_none(a["srpm_nevra"])
        return arch_ok, cat_ok, path_ok, nevra_ok, is_source, srpm_none

    def post(self, E, st, out):
        a = st["a"]
        pat = self.src.mods["common"].RPM_NVRA_RE
        ms = [m for tag, m in E.path.notes if tag == "match"]
        strip = lambda v: If(sym.endswith(v, ".rpm"), sym.drop_suffix(v, 4), v)
        s1 = strip(a["nevra"])
        arch_ok, cat_ok, path_ok, nevra_ok, is_source, srpm_none = self._ok(a, None, None, pat, s1, None)
        # writes to objects that existed before the call (dicts allocated by the call itself are construction, not mutation)
        writes = [w for w in E.path.effects[st["mark"]:] if w[0] in ("dict_write", "list_write")
                  and not (isinstance(w[1], SymDict) and w[1].origin in ("code", "const"))]
        attr_writes = [w for w in E.path.effects[st["mark"]:] if w[0] == "attr_write" and w[1] is st["m"]]
        same_obs = (not writes) and (not attr_writes)
        if out.kind == "raise":
            # refusal: class, manifest unchanged, and only under a documented condition
            cl = {"refuses_with_ValueError_or_TypeError": out.exc_cls in (ValueError, TypeError),
                  "refusal_changes_nothing": same_obs}
            if len(ms) >= 1:
                g = ms[0].groups
                rpm_is_src = sym.isin(g["arch"], ["src", "nosrc"])
                srpm = a["srpm_nevra"]
                srpm_ok = True
                if truthy(srpm) is not False:
                    s2 = strip(SV(sym.Val.VStr(sym.Val.s(srpm.t))))
                    srpm_ok = Implies(truthy(srpm), And(sym.contains(srpm, ":"), sym.matches(pat, s2)))
                ok = And(arch_ok, cat_ok, path_ok, nevra_ok, sym.Iff(is_source, srpm_none), sym.Iff(is_source, rpm_is_src), srpm_ok)
            else:
                ok = And(arch_ok, cat_ok, path_ok, nevra_ok)
            cl["refuses_only_documented_cases"] = Not(ok) if len(ms) < 1 or True else True
            return cl
        # normal return
        if not ms:
            return {"accepts_only_documented_cases": False}
        g = ms[0].groups
        N = _canon(g)
        if truthy(a["srpm_nevra"]) is False or (len(ms) < 2):
            K = N
            srpm_truthy = False
        else:
            K = _canon(ms[1].groups)
            srpm_truthy = True
        rpm_is_src = sym.isin(g["arch"], ["src", "nosrc"])
        ok = And(arch_ok, cat_ok, path_ok, nevra_ok, sym.Iff(is_source, srpm_none), sym.Iff(is_source, rpm_is_src),
                 sym.Iff(truthy(a["srpm_nevra"]), srpm_truthy))
        leaf = lookup_path(E, st["rpms"], [a["variant"], a["arch"], K, N])
        sig = a["sigkey"]
        if is_none(sig) is True:
            exp_sig = None
        else:
            low = E.models.lower(sym.sstr(SV(sym.Val.VStr(sym.Val.s(sig.t)))))
            exp_sig = If(is_none(sig), None, low)
        leaf_ok = False
        if isinstance(leaf, SymDict) and leaf.closed:
            vals = dict((e.key, e.value) for e in leaf.entries if e.present is True)
            leaf_ok = And(set(vals) == {"sigkey", "path", "category"},
                          _veq(vals.get("sigkey"), exp_sig), _veq(vals.get("path"), a["path"]), _veq(vals.get("category"), a["category"])) \
                if set(vals) == {"sigkey", "path", "category"} else False
        # FRAME from the write log: every cell written lies on the addressed chain rpms[variant][arch][K][N]; the three
        # upper levels are written only when they were absent (existing sub-dicts keep their identity)
        chain = []
        cur = st["rpms"]
        for k in (a["variant"], a["arch"], K, N):
            chain.append((cur, k))
            if not isinstance(cur, SymDict):
                cur = E.models.as_dict(cur)
            e = E.models.sd_lookup(cur, k, create=False) if cur is not None else None
            cur = e.value if e is not None else None
            if cur is not None and not isinstance(cur, SymDict):
                cur = E.models.as_dict(cur)
        frame = [not attr_writes]
        for w in writes:
            if w[0] != "dict_write":
                frame.append(False)
                continue
            _, d, e, had, oldv, newv = w
            lvl = [i for i, (cd, ck) in enumerate(chain) if cd is d]
            if not lvl:
                frame.append(False)
                continue
            i = lvl[0]
            frame.append(_veq(e.key, chain[i][1]))
            if i < 3:
                frame.append(Not(had))
        return {"accepts_only_documented_cases": ok,
                "entry_filed_under_canonical_keys": leaf_ok,
                "every_other_entry_unchanged": And(*frame)}

    # native ------------------------------------------------------------------------------------------------
    def concretise(self, model, st):
        return dict((p, concretise.value_of(model, v)) for p, v in st["a"].items())

    def native_eval(self, inputs):
        C = self.src.mods["common"]
        a = dict((p, inputs[p]) for p in self.PARAMS)
        m = self.src.mods["rpms"].Rpms()
        # a pre-existing manifest with an entry at the observer cell and one elsewhere
        ov, oa, ok_, on = inputs.get("obs") or ["V", "x86_64", "s-0:1-1.src", "b-0:1-1.x86_64"]
        m.rpms = {ov: {oa: {ok_: {on: {"sigkey": None, "path": "p", "category": "binary"}}}},
                  "Other": {"i386": {"z-0:1-1.src": {"z-0:1-1.src": {"sigkey": "aa", "path": "q", "category": "source"}}}}}
        before = copy.deepcopy(m.rpms)
        nat = native_call(m.add, *[a[p] for p in self.PARAMS])
        pat = C.RPM_NVRA_RE
        strip = lambda v: v[:-4] if v.endswith(".rpm") else v
        m1 = pat.match(strip(a["nevra"]))
        arch_ok = a["arch"] in self.T.RPM_ARCHES and a["arch"] not in ("src", "nosrc")
        base = arch_ok and a["category"] in CATEGORIES and not a["path"].startswith("/") and ":" in a["nevra"] and m1 is not None
        if base:
            g = m1.groupdict()
            is_source = a["category"] == "source"
            srpm = a["srpm_nevra"]
            srpm_ok = True
            if srpm:
                srpm_ok = ":" in srpm and pat.match(strip(srpm)) is not None
            ok = (is_source == (srpm is None)) and (is_source == (g["arch"] in ("src", "nosrc"))) and srpm_ok
        else:
            ok = False
        if nat[0] == "raise":
            return nat, {"refuses_with_ValueError_or_TypeError": nat[1] in (ValueError, TypeError),
                         "refusal_changes_nothing": m.rpms == before, "refuses_only_documented_cases": not ok}

        def canon(s):
            d = pat.match(strip(s)).groupdict()
            return "%s-%d:%s-%s.%s" % (d["name"], int(d["epoch"] or 0), d["version"], d["release"], d["arch"])
        cl = {"accepts_only_documented_cases": ok}
        if ok:
            N = canon(a["nevra"])
            K = canon(a["srpm_nevra"]) if a["srpm_nevra"] else N
            exp = copy.deepcopy(before)
            exp.setdefault(a["variant"], {}).setdefault(a["arch"], {}).setdefault(K, {})[N] = {
                "sigkey": None if a["sigkey"] is None else a["sigkey"].lower(), "path": a["path"], "category": a["category"]}
            leaf = m.rpms.get(a["variant"], {}).get(a["arch"], {}).get(K, {}).get(N)
            cl["entry_filed_under_canonical_keys"] = leaf == exp[a["variant"]][a["arch"]][K][N]
            cl["every_other_entry_unchanged"] = m.rpms == exp
        return nat, cl

    def sample_inputs(self, rng):
        import itertools
        nev = ["a-0:1-1.x86_64", "a-b-1:2.0-3.el7.noarch.rpm", "dir/n-0:1-1.i686", "s-0:1-1.src", "s-2:1-1.nosrc.rpm", "noepoch-1-1.x86_64",
               "foo:bar", ""]
        srp = [None, "s-0:1-1.src", "s-7:1-1.src.rpm", "a-0:1-1.x86_64", "noepoch-1-1.src", ""]
        combos = list(itertools.product(["Server", ""], ["x86_64", "src", "nosrc", "zzz", "noarch"], nev, ["p/x.rpm", "/abs/x.rpm", ""],
                                        [None, "AABB", "aabb"], ["binary", "debug", "source", "bogus"], srp))
        rng.shuffle(combos)
        for c in combos[:6000]:
            yield dict(zip(self.PARAMS, c))

    def describe(self, inputs):
        return "Rpms().add(%s)" % ", ".join(concretise.py_repr(inputs[p]) for p in self.PARAMS)


def _canon(g):
    """canonical name-epoch:version-release.arch of abstract match groups"""
    ep = g["epoch"]
    absent = Or(is_none(ep), eq(ep, ""))
    if absent is True:
        e = "0"
    else:
        es = SV(sym.Val.VStr(sym.Val.s(ep.t)))
        e = sym.str_of_int(If(absent, 0, sym.int_of_digits(es)))
    return sym.concat(g["name"], "-", e, ":", g["version"], "-", g["release"], ".", g["arch"])


def _leaf_eq(E, new, old):
    """the observer cell holds the same value object / scalar as before"""
    if new is ABSENT or old is ABSENT:
        return new is old
    return _veq(new, old)


def contracts(src, T):
    return [RpmsAdd(src, T)]


# ---------------------------------------------------------------------------------------------------------------------
class ModulesAdd(Contract):
    """Modules.add: files the module under its canonical UID (name:stream[:version[:context]]) with the category's modulemd
    path and its RPM list EXTENDED; refuses (ValueError/TypeError) empty variant/koji tag/modulemd path, unknown arch or
    category, a uid without stream or unparsable, an absolute path, a non-list rpms -- and then changes nothing."""
    name = "productmd.modules.Modules.add"
    key = "meth:modules.Modules.add"
    PARAMS = ("variant", "arch", "uid", "koji_tag", "modulemd_path", "category", "rpms")

    def __init__(self, src, T):
        self.src, self.T = src, T

    def uid_pattern(self):
        import ast
        fn = self.src.classes[("modules", "Modules")].methods["parse_uid"]
        for n in ast.walk(fn):
            if isinstance(n, ast.Call) and ast.unparse(n.func) == "re.compile" and isinstance(n.args[0], ast.Constant):
                return n.args[0].value
        return None

    def requires(self, a):
        return And(is_str(a["variant"]), is_str(a["arch"]), is_str(a["uid"]), is_str(a["koji_tag"]), is_str(a["modulemd_path"]),
                   is_str(a["category"]), Or(sym.is_kind(a["rpms"], sym.K_LIST), sym.is_kind(a["rpms"], sym.K_TUPLE), is_none(a["rpms"])))

    def setup(self, E):
        m = E.instantiate(("modules", "Modules"))
        mods = SymDict("modules", closed=False)
        mods.json = True
        # variant -> arch -> uid -> {metadata: dict, modulemd_path: dict, rpms: list}
        mods.shape = ("dict", ("dict", ("dict", {"metadata": ("dict", None), "modulemd_path": ("dict", None), "rpms": ("list",)})))
        m.fields["modules"] = mods
        a = {}
        for p in self.PARAMS:
            v = SV(z3.Const("arg.%s" % p, sym.Val))
            E.assume(concretise.wellformed(v))
            a[p] = v
        E.assume(self.requires(a))
        return {"m": m, "a": a, "mods": mods, "mark": len(E.path.effects)}

    def call(self, E, st):
        a = st["a"]
        return E.call(E.getattr_(st["m"], "add"), [a[p] for p in self.PARAMS])

    def post(self, E, st, out):
        a = st["a"]
        T = self.T
        pat = self.uid_pattern()
        writes = [w for w in E.path.effects[st["mark"]:] if w[0] in ("dict_write", "list_write")
                  and not (isinstance(w[1], SymDict) and w[1].origin in ("code", "const")) and not isinstance(w[1], list)]
        base_ok = And(truthy(a["variant"]), sym.isin(a["arch"], T.RPM_ARCHES), sym.isin(a["category"], CATEGORIES),
                      sym.contains(a["uid"], ":"), sym.matches(pat, a["uid"]),
                      Not(sym.startswith(a["modulemd_path"], "/")), truthy(a["koji_tag"]), truthy(a["modulemd_path"]),
                      Not(is_none(a["rpms"])))
        if out.kind == "raise":
            return {"refuses_with_ValueError_or_TypeError": out.exc_cls in (ValueError, TypeError),
                    "refusal_changes_nothing": not writes,
                    "refuses_only_documented_cases": Not(base_ok)}
        ms = [m for tag, m in E.path.notes if tag == "match"]
        if not ms:
            return {"accepts_only_documented_cases": False}
        g = ms[0].groups
        ver = If(is_none(g["version"]), "", g["version"])
        ctx = If(is_none(g["context"]), "", g["context"])
        vs = lambda x: SV(sym.Val.VStr(sym.Val.s(x.t))) if isinstance(x, SV) else x
        U = sym.concat(g["module_name"], ":", g["stream"],
                       If(truthy(ver), sym.concat(":", vs(ver)), "") if not isinstance(truthy(ver), bool) else ((":" + ver) if ver else ""),
                       If(truthy(ctx), sym.concat(":", vs(ctx)), "") if not isinstance(truthy(ctx), bool) else ((":" + ctx) if ctx else ""))
        cell = lookup_path(E, st["mods"], [a["variant"], a["arch"], U])
        ok_cell = False
        rp_ok = False
        md_ok = False
        frame = [True]
        if isinstance(cell, SymDict) or isinstance(cell, SV):
            cd = cell if isinstance(cell, SymDict) else E.models.as_dict(cell)
            meta = lookup_path(E, cd, ["metadata"])
            if isinstance(meta, SymDict) and meta.closed:
                vals = dict((e.key, e.value) for e in meta.entries if e.present is True)
                exp = {"uid": U, "name": g["module_name"], "stream": g["stream"], "version": ver, "context": ctx, "koji_tag": a["koji_tag"]}
                ok_cell = And(*[_veq(vals.get(k), v) for k, v in exp.items()]) if set(vals) == set(exp) else False
            mp = lookup_path(E, cd, ["modulemd_path", a["category"]])
            md_ok = _veq(mp, a["modulemd_path"]) if mp is not ABSENT else False
            rl = lookup_path(E, cd, ["rpms"])
            # the RPM list is EXTENDED: new == old ++ rpms
            argseq = E.models.seq_of(a["rpms"])
            if isinstance(rl, list):
                rp_ok = sym.as_bool(E.models.seq_of(rl) == argseq)
            elif isinstance(rl, SV) and E.decide(sym.is_kind(rl, sym.K_LIST)):
                q = E.ref_as_seq(rl)
                rp_ok = sym.as_bool(q.t == z3.Concat(q.t0, argseq))
        # frame: writes only on the chain modules[variant][arch][U] and, below it, the three documented keys
        chain = []
        cur = st["mods"]
        for k in (a["variant"], a["arch"], U):
            chain.append((cur, k))
            e = E.models.sd_lookup(cur, k, create=False) if cur is not None else None
            cur = e.value if e is not None else None
            if cur is not None and not isinstance(cur, SymDict):
                cur = E.models.as_dict(cur)
        celld = cur
        for w in writes:
            if w[0] == "list_write":
                q = w[1]
                rl = lookup_path(E, celld, ["rpms"]) if celld is not None else ABSENT
                frame.append(isinstance(rl, SV) and E.ref_as_seq(rl) is q)
                continue
            _, d, e, had, oldv, newv = w
            lvl = [i for i, (cd_, ck) in enumerate(chain) if cd_ is d]
            if lvl:
                frame.append(_veq(e.key, chain[lvl[0]][1]))
                frame.append(Not(had))
                continue
            if d is celld:
                frame.append(sym.isin(e.key, ["metadata", "modulemd_path", "rpms"]) if isinstance(e.key, SV)
                             else e.key in ("metadata", "modulemd_path", "rpms"))
                if (e.key if not isinstance(e.key, SV) else None) in ("modulemd_path", "rpms"):
                    frame.append(Not(had))
                continue
            mpd = lookup_path(E, celld, ["modulemd_path"]) if celld is not None else ABSENT
            mpd = mpd if isinstance(mpd, SymDict) else (E.models.as_dict(mpd) if isinstance(mpd, SV) else None)
            if mpd is not None and d is mpd:
                frame.append(_veq(e.key, a["category"]))
                continue
            frame.append(False)
        return {"accepts_only_documented_cases": base_ok, "metadata_filed_under_canonical_uid": ok_cell,
                "modulemd_path_of_category_recorded": md_ok, "rpm_list_extended": rp_ok,
                "every_other_entry_unchanged": And(*frame)}

    def concretise(self, model, st):
        return dict((p, concretise.value_of(model, v)) for p, v in st["a"].items())

    def sample_inputs(self, rng):
        import itertools
        uids = ["m:s", "m:s:1", "m:s:1:c", "dir/m:s:1", "m", "m:", ":s", "a:b:c:d:e", ""]
        combos = list(itertools.product(["Server", ""], ["x86_64", "src", "zzz"], uids, ["tag", ""], ["p/m.yaml", "/abs", ""],
                                        ["binary", "debug", "source", "bogus"],
                                        [[], ["a-0:1-1.x86_64", "b-0:1-1.noarch"], ["old-0:1-1.x86_64", "n-0:1-1.noarch"], ["d-0:1-1.i686", "d-0:1-1.i686"], None, ("t",)]))
        rng.shuffle(combos)
        for c in combos[:4000]:
            yield dict(zip(self.PARAMS, c))

    def native_eval(self, inputs):
        import re
        a = dict((p, inputs[p]) for p in self.PARAMS)
        M = self.src.mods["modules"].Modules
        pat = re.compile(self.uid_pattern())

        def fresh():
            m = M()
            m.modules = {"Server": {"x86_64": {"m:s": {"metadata": {"uid": "m:s", "name": "m", "stream": "s", "version": "", "context": "",
                                                                  "koji_tag": "old"}, "modulemd_path": {"binary": "old.yaml"},
                                                       "rpms": ["old-0:1-1.x86_64"]}}},
                         "Other": {"i386": {"z:1": {"metadata": {}, "modulemd_path": {}, "rpms": []}}}}
            return m
        m = fresh()
        before = copy.deepcopy(m.modules)
        nat = native_call(m.add, *[copy.deepcopy(a[p]) for p in self.PARAMS])
        ok = bool(a["variant"]) and a["arch"] in self.T.RPM_ARCHES and a["category"] in CATEGORIES and ":" in a["uid"] and \
            pat.match(a["uid"]) is not None and not a["modulemd_path"].startswith("/") and bool(a["koji_tag"]) and \
            bool(a["modulemd_path"]) and isinstance(a["rpms"], (list, tuple))
        if nat[0] == "raise":
            return nat, {"refuses_with_ValueError_or_TypeError": nat[1] in (ValueError, TypeError),
                         "refusal_changes_nothing": m.modules == before, "refuses_only_documented_cases": not ok}
        cl = {"accepts_only_documented_cases": ok}
        if ok:
            g = pat.match(a["uid"]).groupdict()
            ver, ctx = g["version"] or "", g["context"] or ""
            U = "%s:%s" % (g["module_name"], g["stream"]) + ((":" + ver) if ver else "") + ((":" + ctx) if ctx else "")
            exp = copy.deepcopy(before)
            cell = exp.setdefault(a["variant"], {}).setdefault(a["arch"], {}).setdefault(U, {})
            cell["metadata"] = {"uid": U, "name": g["module_name"], "stream": g["stream"], "version": ver, "context": ctx,
                                "koji_tag": a["koji_tag"]}
            cell.setdefault("modulemd_path", {})[a["category"]] = a["modulemd_path"]
            cell.setdefault("rpms", []).extend(list(a["rpms"]))
            got = m.modules.get(a["variant"], {}).get(a["arch"], {}).get(U, {})
            cl["metadata_filed_under_canonical_uid"] = got.get("metadata") == cell["metadata"]
            cl["modulemd_path_of_category_recorded"] = got.get("modulemd_path", {}).get(a["category"]) == a["modulemd_path"]
            cl["rpm_list_extended"] = got.get("rpms") == cell["rpms"]
            cl["every_other_entry_unchanged"] = m.modules == exp
        return nat, cl

    def describe(self, inputs):
        return "Modules().add(%s)" % ", ".join(concretise.py_repr(inputs[p]) for p in self.PARAMS)


class ExtraFilesAdd(Contract):
    """ExtraFiles.add: appends {file, size, checksums} at the end of the addressed variant/arch list; refuses empty variant,
    unknown arch, empty or absolute path (ValueError) and non-dict checksums (TypeError) -- and then changes nothing."""
    name = "productmd.extra_files.ExtraFiles.add"
    key = "meth:extra_files.ExtraFiles.add"
    PARAMS = ("variant", "arch", "path", "size", "checksums")

    def __init__(self, src, T):
        self.src, self.T = src, T

    def requires(self, a):
        return And(is_str(a["variant"]), is_str(a["arch"]), is_str(a["path"]))

    def setup(self, E):
        m = E.instantiate(("extra_files", "ExtraFiles"))
        ef = SymDict("extra_files", closed=False)
        ef.json = True
        ef.shape = ("dict", ("list",))         # variant -> arch -> [entries]
        m.fields["extra_files"] = ef
        a = {}
        for p in self.PARAMS:
            v = SV(z3.Const("arg.%s" % p, sym.Val))
            E.assume(concretise.wellformed(v))
            a[p] = v
        E.assume(self.requires(a))
        return {"m": m, "a": a, "ef": ef, "mark": len(E.path.effects)}

    def call(self, E, st):
        a = st["a"]
        return E.call(E.getattr_(st["m"], "add"), [a[p] for p in self.PARAMS])

    def post(self, E, st, out):
        a = st["a"]
        writes = [w for w in E.path.effects[st["mark"]:] if w[0] in ("dict_write", "list_write")
                  and not (isinstance(w[1], SymDict) and w[1].origin in ("code", "const"))]
        ok = And(truthy(a["variant"]), sym.isin(a["arch"], self.T.RPM_ARCHES), truthy(a["path"]), Not(sym.startswith(a["path"], "/")),
                 sym.is_kind(a["checksums"], sym.K_DICT))
        if out.kind == "raise":
            return {"refuses_with_ValueError_or_TypeError": out.exc_cls in (ValueError, TypeError),
                    "refusal_changes_nothing": not writes, "refuses_only_documented_cases": Not(ok)}
        lst = lookup_path(E, st["ef"], [a["variant"], a["arch"]])
        appended = False
        entry = None
        if isinstance(lst, list) and len(lst) == 1:
            entry = lst[0]
            appended = True
        elif isinstance(lst, SV) and E.decide(sym.is_kind(lst, sym.K_LIST)):
            q = E.ref_as_seq(lst)
            # new == old ++ [entry]: find the allocated entry among the refs
            ents = [o for k, (o, t) in [(k, v) for k, v in E.path.refs.items() if isinstance(k, tuple) and k[0] == "alloc"]]
            for o in ents:
                if isinstance(o, SymDict):
                    cand = sym.as_bool(q.t == z3.Concat(q.t0, z3.Unit(E.ref_of(o))))
                    if cand is True or (not isinstance(cand, bool) and E.decide(cand)):
                        entry, appended = o, True
                        break
        ent_ok = False
        if isinstance(entry, SymDict):
            vals = dict((e.key, e.value) for e in entry.entries if e.present is True)
            ent_ok = And(_veq(vals.get("file"), a["path"]), _veq(vals.get("size"), a["size"]), _veq(vals.get("checksums"), a["checksums"])) \
                if set(vals) == {"file", "size", "checksums"} else False
        frame = []
        chain = []
        cur = st["ef"]
        for k in (a["variant"], a["arch"]):
            chain.append((cur, k))
            e = E.models.sd_lookup(cur, k, create=False) if cur is not None else None
            cur = e.value if e is not None else None
            if isinstance(cur, SV) and chain and len(chain) < 2:
                cur = E.models.as_dict(cur)
        for w in writes:
            if w[0] == "list_write":
                frame.append(isinstance(lst, SV) and E.ref_as_seq(lst) is w[1] or (isinstance(lst, list) and w[1] is lst))
                continue
            _, d, e, had, oldv, newv = w
            lvl = [i for i, (cd_, ck) in enumerate(chain) if cd_ is d]
            frame.append(bool(lvl) and _veq(e.key, chain[lvl[0]][1]) if lvl else False)
            if lvl:
                frame.append(Not(had))
        return {"accepts_only_documented_cases": ok, "entry_appended_at_end_of_addressed_list": And(appended, ent_ok),
                "every_other_entry_unchanged": And(*frame) if frame else True}

    def concretise(self, model, st):
        return dict((p, concretise.value_of(model, v)) for p, v in st["a"].items())

    def sample_inputs(self, rng):
        import itertools
        combos = list(itertools.product(["Server", ""], ["x86_64", "src", "zzz"], ["GPL", "a/b/GPL", "/abs/GPL", ""], [0, 5, None],
                                        [{"md5": "x"}, {}, None, [], "x"]))
        for c in combos:
            yield dict(zip(self.PARAMS, c))

    def native_eval(self, inputs):
        a = dict((p, inputs[p]) for p in self.PARAMS)
        m = self.src.mods["extra_files"].ExtraFiles()
        m.extra_files = {"Server": {"x86_64": [{"file": "old", "size": 1, "checksums": {"md5": "o"}}]}, "Other": {"i386": []}}
        before = copy.deepcopy(m.extra_files)
        nat = native_call(m.add, *[copy.deepcopy(a[p]) for p in self.PARAMS])
        ok = bool(a["variant"]) and a["arch"] in self.T.RPM_ARCHES and bool(a["path"]) and not a["path"].startswith("/") and \
            isinstance(a["checksums"], dict)
        if nat[0] == "raise":
            return nat, {"refuses_with_ValueError_or_TypeError": nat[1] in (ValueError, TypeError),
                         "refusal_changes_nothing": m.extra_files == before, "refuses_only_documented_cases": not ok}
        cl = {"accepts_only_documented_cases": ok}
        if ok:
            exp = copy.deepcopy(before)
            exp.setdefault(a["variant"], {}).setdefault(a["arch"], []).append({"file": a["path"], "size": a["size"], "checksums": a["checksums"]})
            cl["entry_appended_at_end_of_addressed_list"] = m.extra_files.get(a["variant"], {}).get(a["arch"]) == exp[a["variant"]][a["arch"]]
            cl["every_other_entry_unchanged"] = m.extra_files == exp
        return nat, cl

    def describe(self, inputs):
        return "ExtraFiles().add(%s)" % ", ".join(concretise.py_repr(inputs[p]) for p in self.PARAMS)


def contracts(src, T):          # noqa: F811  (extends the list above)
    return [RpmsAdd(src, T), ModulesAdd(src, T), ExtraFilesAdd(src, T)]


class CheckUid(Contract):
    """Modules._check_uid: ValueError unless uid is a str with a ':' that the UID pattern matches; otherwise returns
    (canonical 'name:stream[:version[:context]]', parts with '' for a missing version/context)."""
    name = "productmd.modules.Modules._check_uid"
    key = "meth:modules.Modules._check_uid"

    def __init__(self, src, T):
        self.src, self.T = src, T
        self.pat = ModulesAdd(src, T).uid_pattern()

    def setup(self, E):
        m = E.instantiate(("modules", "Modules"))
        v = SV(z3.Const("arg.uid", sym.Val))
        E.assume(concretise.wellformed(v))
        return {"m": m, "uid": v}

    def call(self, E, st):
        return E.call(E.getattr_(st["m"], "_check_uid"), [st["uid"]])

    @staticmethod
    def canon(g):
        ver = If(is_none(g["version"]), "", g["version"])
        ctx = If(is_none(g["context"]), "", g["context"])
        vs = lambda x: SV(sym.Val.VStr(sym.Val.s(x.t))) if isinstance(x, SV) else x
        U = sym.concat(g["module_name"], ":", g["stream"],
                       If(truthy(ver), sym.concat(":", vs(ver)), "") if not isinstance(truthy(ver), bool) else ((":" + ver) if ver else ""),
                       If(truthy(ctx), sym.concat(":", vs(ctx)), "") if not isinstance(truthy(ctx), bool) else ((":" + ctx) if ctx else ""))
        return U, ver, ctx

    def post(self, E, st, out):
        uid = st["uid"]
        ok = And(is_str(uid), sym.contains(uid, ":"), sym.matches(self.pat, uid))
        if out.kind == "raise":
            return {"refuses_only_unparsable_uid": Not(ok), "refuses_with_ValueError": out.exc_cls is ValueError}
        ms = [m for tag, m in E.path.notes if tag == "match"]
        r = out.value
        if not ms or not isinstance(r, tuple) or len(r) != 2:
            return {"accepts_only_parsable_uid": False}
        g = ms[0].groups
        U, ver, ctx = self.canon(g)
        d = r[1]
        vals = dict((e.key, e.value) for e in d.entries if e.present is True) if isinstance(d, SymDict) else {}
        exp = {"module_name": g["module_name"], "stream": g["stream"], "version": ver, "context": ctx}
        return {"accepts_only_parsable_uid": ok, "returns_canonical_uid": _veq(r[0], U),
                "returns_parts_with_empty_defaults": And(*[_veq(vals.get(k), v) for k, v in exp.items()]) if set(vals) == set(exp) else False}

    def concretise(self, model, st):
        return {"uid": concretise.value_of(model, st["uid"])}

    def sample_inputs(self, rng):
        for u in ["m:s", "m:s:1", "m:s:1:c", "dir/m:s:1", "m", "m:", ":s", "a:b:c:d:e", "", None, 5]:
            yield {"uid": u}

    def native_eval(self, inputs):
        import re
        uid = inputs["uid"]
        m = self.src.mods["modules"].Modules()
        nat = native_call(m._check_uid, uid)
        pat = re.compile(self.pat)
        ok = isinstance(uid, str) and ":" in uid and pat.match(uid) is not None
        if nat[0] == "raise":
            return nat, {"refuses_only_unparsable_uid": not ok, "refuses_with_ValueError": nat[1] is ValueError}
        cl = {"accepts_only_parsable_uid": ok}
        if ok:
            g = pat.match(uid).groupdict()
            ver, ctx = g["version"] or "", g["context"] or ""
            U = "%s:%s" % (g["module_name"], g["stream"]) + ((":" + ver) if ver else "") + ((":" + ctx) if ctx else "")
            cl["returns_canonical_uid"] = nat[1][0] == U
            cl["returns_parts_with_empty_defaults"] = nat[1][1] == {"module_name": g["module_name"], "stream": g["stream"], "version": ver, "context": ctx}
        return nat, cl

    def describe(self, inputs):
        return "Modules()._check_uid(%r)" % (inputs["uid"],)


def summary_check_uid(src, T):
    """modular use of CheckUid at call sites: one path per outcome"""
    pat = ModulesAdd(src, T).uid_pattern()

    def summ(E, o, args, kwargs):
        import re
        from pyvc.engine import PyRaise
        from pyvc.models import SymMatch
        uid = args[0]
        ok = And(is_str(uid), sym.contains(uid, ":"), sym.matches(pat, uid))
        if not E.decide(ok):
            raise PyRaise(ExcVal(ValueError, ("Invalid uid",)))
        m = SymMatch(re.compile(pat), sym.sstr(uid))
        d = E.models.sym_groupdict(m)
        U, ver, ctx = CheckUid.canon(m.groups)
        E.models.sd_set(d, "version", ver)
        E.models.sd_set(d, "context", ctx)
        return (U, d)
    return summ


def summaries(src, T):
    return {(("modules", "Modules"), "_check_uid"): summary_check_uid(src, T)}


def deep_veq(a, b):
    """structural equality of two document values (closed SymDicts with pairwise distinct keys, lists, scalars) as a formula"""
    from .sections import _veq
    if a is b:
        return True
    if isinstance(a, SymDict) and isinstance(b, SymDict):
        ea = [e for e in a.entries if e.present is not False]
        eb = [e for e in b.entries if e.present is not False]
        if any(e.present is not True for e in ea + eb) or len(ea) != len(eb):
            return False
        return And(*[Or(*[And(_veq(x.key, y.key), deep_veq(x.value, y.value)) for x in ea]) for y in eb])
    if isinstance(a, list) and isinstance(b, list):
        return len(a) == len(b) and And(*[deep_veq(x, y) for x, y in zip(a, b)])
    if isinstance(a, (SymDict, list)) or isinstance(b, (SymDict, list)):
        return False
    return _veq(a, b)


class ManifestShape(Contract):
    """Rpms/Modules/ExtraFiles serialize + deserialize on a payload of fixed SHAPE with symbolic keys and leaves (two variants; two
    arches under the first; two records under the first arch, one with a null field): what is read back is structurally equal to what was
    written -- no variant, arch or record gained or lost, every leaf (null included) unchanged."""

    def __init__(self, src, T, module, cls, attr):
        self.src, self.T, self.module, self.cls, self.attr = src, T, module, cls, attr
        self.name = "productmd.%s.%s.deserialize(serialize(m))[shape]" % (module, cls)
        self.key = "rt:%s.%s:shape" % (module, cls)

    # the symbolic atoms of the payload, by name; `build` makes the same payload from symbolic or concrete atoms
    def atoms(self, E):
        def s(n):
            return SV(sym.Val.VStr(z3.Const("p.%s" % n, sym.S)))

        def v(n):
            x = SV(z3.Const("p.%s" % n, sym.Val))
            E.assume(concretise.json_value(x))
            E.assume(Not(sym.is_ref(x)))
            return x
        a = dict((n, s(n)) for n in ("V1", "V2", "A1", "A2", "k1", "k2", "k3", "path1", "path2", "path3", "cat", "name", "rpm1", "rpm2"))
        a.update(dict((n, v(n)) for n in ("sigkey1", "size1", "size2")))
        E.assume(And(Not(eq(a["V1"], a["V2"])), Not(eq(a["A1"], a["A2"])), Not(eq(a["k1"], a["k2"]))))
        return a

    def build(self, a, D, L):
        """D(list of (key, value)) makes a dict, L(list) a list"""
        if self.module == "rpms":
            def rec(sig, path):
                return D([("sigkey", sig), ("path", path), ("category", a["cat"])])
            return D([(a["V1"], D([(a["A1"], D([(a["k3"], D([(a["k1"], rec(a["sigkey1"], a["path1"])), (a["k2"], rec(None, a["path2"]))]))])),
                                   (a["A2"], D([(a["k3"], D([(a["k1"], rec("ABCDEF01", a["path3"]))]))]))])),
                      (a["V2"], D([(a["A1"], D([]))]))])
        if self.module == "extra_files":
            def rec(path, size):
                return D([("file", path), ("size", size), ("checksums", D([("sha256", a["cat"])]))])
            return D([(a["V1"], D([(a["A1"], L([rec(a["path1"], a["size1"]), rec(a["path2"], a["size2"])])), (a["A2"], L([rec(a["path3"], 0)]))])),
                      (a["V2"], D([(a["A1"], L([]))]))])
        def rec(name, rpms):
            return D([("metadata", D([("name", name), ("stream", a["cat"]), ("version", a["path3"]), ("context", a["path2"]), ("uid", a["k1"]),
                                      ("koji_tag", a["sigkey1"])])), ("modulemd_path", D([("binary", a["path1"])])), ("rpms", L(rpms))])
        return D([(a["V1"], D([(a["A1"], D([(a["k1"], rec(a["name"], [a["rpm1"], a["rpm2"]])), (a["k2"], rec(a["name"], []))])),
                               (a["A2"], D([(a["k1"], rec(a["name"], [a["rpm1"]]))]))])),
                  (a["V2"], D([(a["A1"], D([]))]))])

    def setup(self, E):
        from spec import fields as F
        from .sections import _sv_fields, SECTIONS
        ver = "%d.%d" % tuple(E.mods["common"].VERSION)
        m = E.instantiate((self.module, self.cls))
        m.fields["header"].fields["version"] = ver
        _sv_fields(E, m.fields["compose"], SECTIONS["composeinfo.Compose"].fields, "c")
        E.assume(F.valid_compose(self.T, m.fields["compose"]))
        a = self.atoms(E)

        def D(items):
            d = E.models.new_dict("payload")
            for k, v in items:
                d.entries.append(Entry(k, True, v))
            return d
        P = self.build(a, D, list)
        W = self.build(a, D, list)          # an equal, separately built copy: the expected value
        m.fields[self.attr] = P
        m2 = E.instantiate((self.module, self.cls))
        return {"m": m, "m2": m2, "P": P, "W": W, "a": a, "data": E.models.new_dict("data")}

    def call(self, E, st):
        E.call(E.getattr_(st["m"], "serialize"), [st["data"]])
        return E.call(E.getattr_(st["m2"], "deserialize"), [st["data"]])

    def post(self, E, st, out):
        if out.kind == "raise":
            return {"write_read_cycle_succeeds": False}
        pay = E.models.sd_lookup(st["data"], "payload", create=False)
        wr = E.models.sd_lookup(pay.value, self.attr, create=False) if pay is not None and isinstance(pay.value, SymDict) else None
        return {"write_read_cycle_succeeds": True,
                "payload_written_unchanged": wr is not None and deep_veq(wr.value, st["W"]),
                "payload_read_back_equal": deep_veq(st["m2"].fields[self.attr], st["W"]),
                "writer_leaves_its_payload_unchanged": deep_veq(st["m"].fields[self.attr], st["W"])}

    def concretise(self, model, st):
        return dict((k, concretise.value_of(model, v)) for k, v in st["a"].items())

    def sample_inputs(self, rng):
        base = {"V1": "Server", "V2": "Client", "A1": "x86_64", "A2": "s390x", "k1": "a-0:1-1.src", "k2": "b-0:1-1.src", "k3": "s-0:1-1.src",
                "path1": "p/1", "path2": "p/2", "path3": "p/3", "cat": "binary", "name": "n", "rpm1": "r1", "rpm2": "r2",
                "sigkey1": "ABCDEF01", "size1": 1, "size2": 2 ** 40}
        yield dict(base)
        yield dict(base, sigkey1=None, size1=0)
        yield dict(base, sigkey1="abcDEF01", cat="Source", V1="b", V2="a", A1="ppc64le", A2="aarch64")
        # module UIDs with 2, 3 and 4 parts; blank version/context as filed for the short forms
        yield dict(base, k1="perl:5.30", k2="nodejs:12:2020", path3="", path2="")
        yield dict(base, k1="perl:5.30:2020:cafe", k2="nodejs:12", path3="2020", path2="cafe")
        # realistic key spellings (sub-package names, dashed names, epochs) and every category
        for cat in ("binary", "debug", "source"):
            yield dict(base, cat=cat, k1="kernel-debug-core-0:5.14-1.x86_64", k2="glibc-debuginfo-common-1:2.34-1.x86_64",
                       k3="kernel-0:5.14-1.src", rpm1="kernel-debug-0:5.14-1.x86_64", rpm2="python3-devel-0:3.9-1.noarch")

    def native_eval(self, a):
        mod = self.src.mods[self.module]
        m, m2 = getattr(mod, self.cls)(), getattr(mod, self.cls)()
        m.compose.id, m.compose.type, m.compose.date, m.compose.respin = "F-21-20141201.0", "production", "20141201", 0
        for k in ("V1", "V2", "A1", "A2", "k1", "k2"):
            if not isinstance(a[k], str):
                return ("skip", None), None
        if a["V1"] == a["V2"] or a["A1"] == a["A2"] or a["k1"] == a["k2"]:
            return ("skip", None), None
        P = self.build(a, dict, list)
        W = copy.deepcopy(P)
        setattr(m, self.attr, P)
        data = {}

        def cyc():
            m.serialize(data)
            m2.deserialize(data)
        nat = native_call(cyc)
        if nat[0] == "raise":
            return nat, {"write_read_cycle_succeeds": False}

        def same(x, y):
            if isinstance(x, dict) and isinstance(y, dict):
                return set(x) == set(y) and all(same(x[k], y[k]) for k in x)
            if isinstance(x, list) and isinstance(y, list):
                return len(x) == len(y) and all(same(p, q) for p, q in zip(x, y))
            return type(x) is type(y) and x == y
        return nat, {"write_read_cycle_succeeds": True,
                     "payload_written_unchanged": same(data.get("payload", {}).get(self.attr), W),
                     "payload_read_back_equal": same(getattr(m2, self.attr), W),
                     "writer_leaves_its_payload_unchanged": same(getattr(m, self.attr), W)}

    def describe(self, a):
        return "%s manifest with payload %s written and re-read" % (self.cls, concretise.py_repr(self.build(a, dict, list)))


class Rpms03Refile(Contract):
    """Rpms.deserialize_0_3 on the legacy document  {V: {A1: {S: {R1: rec1}}, A2: {S: {R2: rec2}}, 'src': {S: srec}}}  (all keys and leaves
    symbolic, 'src' first or last): every binary record is filed through add() under its own arch with category 'package' -> 'binary',
    and the source RPM is re-filed under EVERY binary arch that lists packages built from it, with the path and sigkey of ITS OWN record
    under 'src'; nothing is filed under 'src'.  add() itself is the callee contract meth:rpms.Rpms.add (recorded here, not executed)."""
    name = "productmd.rpms.Rpms.deserialize_0_3"
    key = "meth:rpms.Rpms.deserialize_0_3"

    def __init__(self, src, T, two_variants=False):
        self.src, self.T = src, T
        # second shape: {V: {A1: {S: {R1}}, 'src': {S: srec}}, V2: {A1: {S: {R2}}, 'src': {S: srec2}}} -- two variants shipping packages
        # built from the SAME source RPM under the SAME binary arch, each with its own source record
        self.two_variants = two_variants
        if two_variants:
            self.name = self.name + "[two variants sharing a source RPM]"
            self.key = self.key + ":2v"

    def _docs(self, a, D, rec, src_first):
        """[(variant, [(arch, content) ...])] of the legacy document"""
        if not self.two_variants:
            arches = [(a["A1"], D([(a["S"], D([(a["R1"], rec(a["type1"], a["path1"], a["sigkey1"]))]))])),
                      (a["A2"], D([(a["S"], D([(a["R2"], rec(a["type2"], a["path2"], a["sigkey2"]))]))]))]
            srcd = ("src", D([(a["S"], rec("source", a["spath"], a["ssigkey"]))]))
            return [(a["V"], [srcd] + arches if src_first else arches + [srcd])]
        out = []
        for v, r, t, pth, sk, sp, ssk in ((a["V"], a["R1"], a["type1"], a["path1"], a["sigkey1"], a["spath"], a["ssigkey"]),
                                          (a["V2"], a["R2"], a["type2"], a["path2"], a["sigkey2"], a["spath2"], a["ssigkey2"])):
            bin_ = (a["A1"], D([(a["S"], D([(r, rec(t, pth, sk))]))]))
            srcd = ("src", D([(a["S"], rec("source", sp, ssk))]))
            out.append((v, [srcd, bin_] if src_first else [bin_, srcd]))
        return out

    def setup(self, E):
        m = E.instantiate(("rpms", "Rpms"))
        a = {}
        for n in ("V", "A1", "A2", "S", "R1", "R2", "path1", "path2", "spath", "type1", "type2") + (("V2", "spath2") if self.two_variants else ()):
            a[n] = SV(sym.Val.VStr(z3.Const("d.%s" % n, sym.S)))
        for n in ("sigkey1", "sigkey2", "ssigkey") + (("ssigkey2",) if self.two_variants else ()):
            a[n] = SV(z3.Const("d.%s" % n, sym.Val))
            E.assume(Or(is_none(a[n]), is_str(a[n])))
        E.assume(And(Not(eq(a["A1"], a["A2"])), Not(eq(a["A1"], "src")), Not(eq(a["A2"], "src"))))
        if self.two_variants:
            E.assume(Not(eq(a["V"], a["V2"])))

        def D(items):
            d = E.models.new_dict("doc")
            for k, v in items:
                d.entries.append(Entry(k, True, v))
            return d

        def rec(t, path, sig):
            return D([("type", t), ("path", path), ("sigkey", sig)])
        src_first = E.decide(E.fresh("src_first", z3.BoolSort()))
        data = D([("payload", D([("compose", D([])), ("manifest", D([(v, D(arches)) for v, arches in self._docs(a, D, rec, src_first)]))]))])
        calls = []

        def add(E_, o, args, kwargs):
            calls.append((list(args), dict(kwargs)))
            return None
        E.summaries[(("rpms", "Rpms"), "add")] = add
        E.summaries[(("composeinfo", "Compose"), "deserialize")] = lambda E_, o, args, kwargs: None
        return {"m": m, "data": data, "a": a, "calls": calls, "src_first": src_first}

    def call(self, E, st):
        try:
            return E.call(E.getattr_(st["m"], "deserialize_0_3"), [st["data"]])
        finally:
            E.summaries.pop((("rpms", "Rpms"), "add"), None)
            E.summaries.pop((("composeinfo", "Compose"), "deserialize"), None)

    def expected(self, a, cat):
        if self.two_variants:
            return [(a["V"], a["A1"], a["R1"], a["path1"], a["sigkey1"], cat(a["type1"]), a["S"]),
                    (a["V"], a["A1"], a["S"], a["spath"], a["ssigkey"], "source", None),
                    (a["V2"], a["A1"], a["R2"], a["path2"], a["sigkey2"], cat(a["type2"]), a["S"]),
                    (a["V2"], a["A1"], a["S"], a["spath2"], a["ssigkey2"], "source", None)]
        return [(a["V"], a["A1"], a["R1"], a["path1"], a["sigkey1"], cat(a["type1"]), a["S"]),
                (a["V"], a["A1"], a["S"], a["spath"], a["ssigkey"], "source", None),
                (a["V"], a["A2"], a["R2"], a["path2"], a["sigkey2"], cat(a["type2"]), a["S"]),
                (a["V"], a["A2"], a["S"], a["spath"], a["ssigkey"], "source", None)]

    def post(self, E, st, out):
        if out.kind == "raise":
            return {"legacy_document_is_read": False}
        a = st["a"]
        names = ["variant", "arch", "nevra", "path", "sigkey", "category", "srpm_nevra"]
        got = []
        for args, kw in st["calls"]:
            row = list(args) + [None] * (7 - len(args))
            for k, v in kw.items():
                row[names.index(k)] = v
            got.append(row)
        exp = self.expected(a, lambda t: If(eq(t, "package"), "binary", t))
        # the calls are compared as SETS of argument rows: add() is idempotent for equal arguments and the manifest it builds does not
        # depend on the order of adds to different keys, so neither the order nor repetitions are part of the contract
        def row_eq(g, e):
            return And(*[_veq(x, y) for x, y in zip(g, e)])
        same = bool(got) and And(And(*[Or(*[row_eq(g, e) for e in exp]) for g in got]), And(*[Or(*[row_eq(g, e) for g in got]) for e in exp]))
        return {"legacy_document_is_read": True,
                "every_record_refiled_with_its_own_fields": same,
                "nothing_filed_under_src": And(*[Not(eq(r[1], "src")) for r in got]) if got else True}

    def concretise(self, model, st):
        inp = dict((k, concretise.value_of(model, v)) for k, v in st["a"].items())
        inp["src_first"] = bool(st["src_first"])
        return inp

    def sample_inputs(self, rng):
        base = {"V": "Server", "A1": "x86_64", "A2": "s390x", "S": "s-0:1-1.src", "R1": "a-0:1-1.x86_64", "R2": "a-0:1-1.s390x", "path1": "p1",
                "path2": "p2", "spath": "sp", "type1": "package", "type2": "debug", "sigkey1": "k1", "sigkey2": None, "ssigkey": "sk"}
        base.update({"V2": "Workstation", "spath2": "sp2", "ssigkey2": None})
        for sf in (False, True):
            yield dict(base, src_first=sf)
            yield dict(base, src_first=sf, ssigkey=None, sigkey1="zz")
            yield dict(base, src_first=sf, V="Workstation", V2="Server")

    def native_eval(self, a):
        mod = self.src.mods["rpms"]
        m = mod.Rpms()
        calls = []
        m.add = lambda *args, **kw: calls.append((list(args), kw))
        m.compose.deserialize = lambda *args, **kw: None

        def rec(t, path, sig):
            return {"type": t, "path": path, "sigkey": sig}
        docs = self._docs(a, dict, rec, a.get("src_first"))
        if len(dict(docs)) != len(docs) or any(len(dict(ar)) != len(ar) for v, ar in docs):
            return ("skip", None), None
        data = {"payload": {"compose": {}, "manifest": dict((v, dict(ar)) for v, ar in docs)}}
        nat = native_call(m.deserialize_0_3, data)
        if nat[0] == "raise":
            return nat, {"legacy_document_is_read": False}
        names = ["variant", "arch", "nevra", "path", "sigkey", "category", "srpm_nevra"]
        got = []
        for args, kw in calls:
            row = list(args) + [None] * (7 - len(args))
            for k, v in kw.items():
                row[names.index(k)] = v
            got.append(tuple(row))
        exp = self.expected(a, lambda t: "binary" if t == "package" else t)
        return nat, {"legacy_document_is_read": True, "every_record_refiled_with_its_own_fields": set(got) == set(tuple(e) for e in exp),
                     "nothing_filed_under_src": all(r[1] != "src" for r in got)}

    def describe(self, a):
        return "Rpms.deserialize_0_3 on the legacy manifest built from %s" % concretise.py_repr(a)


def contracts(src, T):          # noqa: F811
    return [RpmsAdd(src, T), ModulesAdd(src, T), ExtraFilesAdd(src, T), CheckUid(src, T)]


class ManifestVerbatim(Contract):
    """Rpms/Modules/ExtraFiles serialize + deserialize: the payload mapping object is stored under payload.<key> and taken back
    verbatim (the very same object), header and compose sections are written; nothing else is added to the document."""

    def __init__(self, src, T, module, cls, attr):
        self.src, self.T, self.module, self.cls, self.attr = src, T, module, cls, attr
        self.name = "productmd.%s.%s.deserialize(serialize(m))" % (module, cls)
        self.key = "rt:%s.%s" % (module, cls)

    def setup(self, E):
        from spec import fields as F
        from .sections import _sv_fields, SECTIONS
        ver = "%d.%d" % tuple(E.mods["common"].VERSION)
        m = E.instantiate((self.module, self.cls))
        m.fields["header"].fields["version"] = ver
        f = _sv_fields(E, m.fields["compose"], SECTIONS["composeinfo.Compose"].fields, "c")
        E.assume(F.valid_compose(self.T, m.fields["compose"]))
        P = SV(z3.Const("payload", sym.Val))
        E.assume(sym.is_kind(P, sym.K_DICT))
        m.fields[self.attr] = P
        m2 = E.instantiate((self.module, self.cls))
        return {"m": m, "m2": m2, "P": P, "f": f, "data": E.models.new_dict("data")}

    def call(self, E, st):
        E.call(E.getattr_(st["m"], "serialize"), [st["data"]])
        return E.call(E.getattr_(st["m2"], "deserialize"), [st["data"]])

    def post(self, E, st, out):
        if out.kind == "raise":
            return {"write_read_cycle_succeeds": False}
        data = st["data"]
        top = dict((e.key, e.value) for e in data.entries if e.present is True)
        pay = top.get("payload")
        payd = dict((e.key, e.value) for e in pay.entries if e.present is True) if isinstance(pay, SymDict) else {}
        hdr = top.get("header")
        hd = dict((e.key, e.value) for e in hdr.entries if e.present is True) if isinstance(hdr, SymDict) else {}
        ver = "%d.%d" % tuple(self.src.mods["common"].VERSION)
        from .sections import _veq
        nf = st["f"]
        c2 = st["m2"].fields["compose"]
        return {"write_read_cycle_succeeds": True,
                "document_has_header_and_payload_only": set(top) == {"header", "payload"} and set(payd) == {"compose", self.attr},
                "header_names_type_and_current_version": hd == {"type": "productmd.%s" % self.module, "version": ver},
                "payload_stored_verbatim": payd.get(self.attr) is st["P"],
                "payload_read_back_verbatim": st["m2"].fields[self.attr] is st["P"],
                "compose_section_intact": And(*[_veq(c2.fields[k], nf[k]) for k in ("id", "type", "date", "respin")]),
                "version_current_after_load": st["m2"].fields["header"].fields["version"] == ver}

    def concretise(self, model, st):
        return None

    def native_eval(self, inputs):
        raise NotImplementedError



class Rpms03RefileAny(Contract):
    """Rpms.deserialize_0_3 on a legacy document of ARBITRARY size (any number of variants, arches, source packages and packages; witness rule
    of pyvc/anycoll.py for the four nested loops, add() is the recorded callee contract): for the arbitrary entry (variant v, arch a, source
    package s, package r) with a != 'src', the iteration files r under (v, a) with its own path/sigkey/category ('package' -> 'binary') and
    source package s, and -- iff v's 'src' table lists s -- files s under (v, a) as 'source' with the path/sigkey of ITS OWN record; nothing
    is ever filed under 'src'."""
    name = "productmd.rpms.Rpms.deserialize_0_3[document of arbitrary size]"
    key = "meth:rpms.Rpms.deserialize_0_3:any"

    def __init__(self, src, T):
        self.src, self.T = src, T

    def setup(self, E):
        from pyvc.anycoll import AnyDict
        m = E.instantiate(("rpms", "Rpms"))
        recs = {}

        def rec(E_, key, tag, kind):
            d = E_.models.new_dict("rec")
            f = {"path": SV(sym.Val.VStr(E_.fresh("rec.path", sym.S))), "sigkey": SV(E_.fresh("rec.sigkey"))}
            E_.assume(Or(is_none(f["sigkey"]), is_str(f["sigkey"])))
            f["type"] = "source" if kind == "src" else SV(sym.Val.VStr(E_.fresh("rec.type", sym.S)))
            for k in ("type", "path", "sigkey"):
                d.entries.append(Entry(k, True, f[k]))
            recs[id(d)] = f
            return d

        def arch_table(E_, key, tag):
            if E_.decide(eq(key, "src")):
                return AnyDict("srctable", lambda e, k, t: rec(e, k, t, "src"))
            return AnyDict("srpms", lambda e, k, t: AnyDict("rpms", lambda e2, k2, t2: rec(e2, k2, t2, "bin")))
        manifest = AnyDict("manifest", lambda e, k, t: AnyDict("arches", arch_table))
        payload = E.models.new_dict("payload")
        payload.entries.append(Entry("compose", True, E.models.new_dict("compose")))
        payload.entries.append(Entry("manifest", True, manifest))
        data = E.models.new_dict("doc")
        data.entries.append(Entry("payload", True, payload))
        calls = []

        def add(E_, o, args, kwargs):
            calls.append((list(args), dict(kwargs)))
            return None
        E.summaries[(("rpms", "Rpms"), "add")] = add
        E.summaries[(("composeinfo", "Compose"), "deserialize")] = lambda E_, o, args, kwargs: None
        return {"m": m, "data": data, "manifest": manifest, "calls": calls, "recs": recs}

    def call(self, E, st):
        try:
            return E.call(E.getattr_(st["m"], "deserialize_0_3"), [st["data"]])
        finally:
            E.summaries.pop((("rpms", "Rpms"), "add"), None)
            E.summaries.pop((("composeinfo", "Compose"), "deserialize"), None)

    def post(self, E, st, out):
        from pyvc.anycoll import AnyDict, AnyItems
        if out.kind == "raise":
            return {"legacy_document_is_read": False}
        wit = getattr(E.path, "witnesses", [])
        names = ["variant", "arch", "nevra", "path", "sigkey", "category", "srpm_nevra"]
        got = []
        for args, kw in st["calls"]:
            row = list(args) + [None] * (7 - len(args))
            for k, v in kw.items():
                row[names.index(k)] = v
            got.append(row)
        under_src = And(*[Not(eq(r[1], "src")) for r in got]) if got else True
        # the chain of 'all' witnesses: variant key, arch key, (srpm, rpms) item, (rpm, record) item
        alls = [(c, x) for kind, c, x in wit if kind == "all"]
        if any(kind == "exit" for kind, c, x in wit):
            return {"legacy_document_is_read": True, "no_iteration_leaves_the_loops_early": False}
        cl = {"legacy_document_is_read": True, "nothing_filed_under_src": under_src}
        full = [x for c, x in alls if x is not None]
        if len(alls) == 4 and len(full) == 4:
            v, a, (s, rpms), (r, recd) = full
            f = st["recs"].get(id(recd))
            vt = [e[2] for e in st["manifest"].known if e[0] is v][0]
            # whether v's 'src' table lists s is a fact about the DOCUMENT, not about what the reader chose to look up: the entries are
            # materialised here if the code never asked for them (fresh presence bits: both answers are explored)
            from pyvc.anycoll import dict_lookup, _entry_present
            srec = None
            e_src = dict_lookup(E, vt, "src")
            if _entry_present(E, vt, e_src, "post") and isinstance(e_src[2], AnyDict):
                e_s = dict_lookup(E, e_src[2], s)
                if _entry_present(E, e_src[2], e_s, "post"):
                    srec = st["recs"].get(id(e_s[2]))
            exp = [[v, a, r, f["path"], f["sigkey"], If(eq(f["type"], "package"), "binary", f["type"]), s]]
            if srec is not None:
                exp.append([v, a, s, srec["path"], srec["sigkey"], "source", None])

            def row_eq(g, e):
                return And(*[_veq(x, y) for x, y in zip(g, e)])
            cl["entry_refiled_with_its_own_fields_and_its_source_package"] = \
                And(len(got) == len(exp), *[Or(*[row_eq(g, e) for e in exp]) for g in got]) if len(got) == len(exp) else False
        else:
            # some level is empty (or the arch is 'src'): this iteration files nothing
            cl["entry_refiled_with_its_own_fields_and_its_source_package"] = len(got) == 0
        return cl

    def concretise(self, model, st):
        return None

    def native_eval(self, inputs):
        raise NotImplementedError

def contracts(src, T):          # noqa: F811
    return [RpmsAdd(src, T), ModulesAdd(src, T), ExtraFilesAdd(src, T), CheckUid(src, T),
            ManifestVerbatim(src, T, "rpms", "Rpms", "rpms"), ManifestVerbatim(src, T, "modules", "Modules", "modules"),
            ManifestVerbatim(src, T, "extra_files", "ExtraFiles", "extra_files"),
            ManifestShape(src, T, "rpms", "Rpms", "rpms"), ManifestShape(src, T, "modules", "Modules", "modules"),
            ManifestShape(src, T, "extra_files", "ExtraFiles", "extra_files"), Rpms03Refile(src, T), Rpms03Refile(src, T, two_variants=True), Rpms03RefileAny(src, T)]
