"""Contracts of the string functions of productmd.common / composeinfo / rpms / modules / extra_files
(C12-C15).  Capture-group POSITIONS are rx obligations (props/C13, C15); these contracts carry the function
bodies: what is matched, how groups are post-processed, what is returned, when and what is raised."""
import re

from pyvc import sym
from pyvc.sym import And, Or, Not, Implies, If, is_str, is_none, eq
from .base import FnContract, MethContract, dict_get, dict_keys


def _pattern_of(src, module, name):
    return getattr(src.mods[module], name)


class ParseNvra(FnContract):
    """common.parse_nvra: '.rpm' stripped iff present; RPM_NVRA_RE matched against the rest; the group dict is
    returned unchanged except epoch := int(epoch or 0); an exception only when the pattern does not match."""
    MODULE, FUNC, PARAMS = "common", "parse_nvra", ("nvra",)

    def requires(self, a):
        return is_str(a["nvra"])

    def _stripped(self, a):
        n = a["nvra"]
        return If(sym.endswith(n, ".rpm"), sym.drop_suffix(n, 4), n) if isinstance(n, sym.SV) else \
            (n[:-4] if n.endswith(".rpm") else n)

    def sym_aux(self, E, st):
        ms = [m for tag, m in E.path.notes if tag == "match"]
        return {"match": ms[0] if ms else None, "pattern": _pattern_of(self.src, "common", "RPM_NVRA_RE")}

    def native_aux(self, a):
        pat = _pattern_of(self.src, "common", "RPM_NVRA_RE")
        n = a["nvra"]
        s = n[:-4] if n.endswith(".rpm") else n
        m = pat.match(s)

        class M(object):
            pass
        if m is None:
            return {"match": None, "pattern": pat}
        mm = M()
        mm.s = s
        mm.groups = m.groupdict()
        return {"match": mm, "pattern": pat}

    def ensures(self, a, out, aux):
        m = aux["match"]
        stripped = self._stripped(a)
        if out.kind == "raise":
            # nothing may be raised for a string the pattern matches
            return {"raises_only_without_match": Not(sym.matches(aux["pattern"], stripped))}
        if m is None:
            return {"returns_match_groups": False}
        res = out.value
        names = sorted(aux["pattern"].groupindex.keys())
        cl = {"matched_text_is_rpm_stripped": eq(m.s if isinstance(m.s, str) else sym.mk_str(m.s), stripped),
              "keys": dict_keys(res) == names}
        same = []
        for n in names:
            if n == "epoch":
                continue
            same.append(eq(dict_get(res, n), m.groups[n]) if dict_get(res, n) is not KeyError else False)
        cl["groups_returned_unchanged"] = And(*same)
        ge = m.groups.get("epoch")
        re_ = dict_get(res, "epoch")
        if re_ is KeyError or ge is KeyError:
            cl["epoch_int_default_0"] = False
        else:
            absent = Or(is_none(ge), eq(ge, ""))
            cl["epoch_int_default_0"] = And(sym.is_strict_int(re_),
                                            Implies(absent, eq(re_, 0)),
                                            Implies(Not(absent), eq(re_, sym.int_of_digits(ge) if not is_none(ge) is True else 0)))
        return cl


class IsValidPredicate(FnContract):
    """common.is_valid_release_*: returns (pattern.match(arg) is not None) for the right module pattern"""
    MODULE = "common"
    PARAMS = ("s",)

    def __init__(self, src, func, pattern_name, T=None):
        self.FUNC = func
        self.pattern_name = pattern_name
        FnContract.__init__(self, src, T)

    def requires(self, a):
        return is_str(a["s"])

    def ensures(self, a, out, aux):
        pat = _pattern_of(self.src, "common", self.pattern_name)
        if out.kind == "raise":
            return {"never_raises_on_str": False}
        m = sym.matches(pat, a["s"])
        v = out.value
        return {"returns_bool_match": And(sym.is_bool(v), sym.Iff(sym.truthy(v), m))}


class RelativeTo(FnContract):
    """extra_files._relative_to(path, root): strips root only on a path-component boundary"""
    MODULE, FUNC, PARAMS = "extra_files", "_relative_to", ("path", "root")

    def requires(self, a):
        return And(is_str(a["path"]), is_str(a["root"]))

    def ensures(self, a, out, aux):
        if out.kind == "raise":
            return {"never_raises_on_str": False}
        path, root, r = a["path"], a["root"], out.value
        if isinstance(path, str):
            base = root.rstrip("/") + "/"
            exp = path[len(base):] if path.startswith(base) else path
            return {"strips_on_component_boundary": r == exp}
        # symbolic: base = rstrip(root, "/") + "/" with rstrip as the mathematical spec function (the unique
        # decomposition root == base0 + "/"*k with base0 not ending in "/")
        import z3
        E = aux["E"]
        ps = sym.sstr(path)
        b0 = sym.sstr(E.models.strip(sym.sstr(root), "/", "rstrip"))
        base = z3.Concat(b0, z3.StringVal("/"))
        exp = z3.If(z3.PrefixOf(base, ps), z3.SubString(ps, z3.Length(base), z3.Length(ps) - z3.Length(base)), ps)
        return {"strips_on_component_boundary": And(is_str(r), sym.sstr(r) == exp)}

    def sym_aux(self, E, st):
        return {"E": E}


class CheckNevra(MethContract):
    """rpms.Rpms._check_nevra: refuses (ValueError) a name without ':' or one the NVRA pattern does not match;
    otherwise returns (canonical 'name-epoch:version-release.arch', parsed parts)."""
    CLASS, FUNC, PARAMS = ("rpms", "Rpms"), "_check_nevra", ("nevra",)

    def requires(self, a):
        return is_str(a["nevra"])

    sym_aux = ParseNvra.sym_aux
    _stripped = ParseNvra._stripped

    def native_aux(self, a):
        return ParseNvra.native_aux(self, {"nvra": a["nevra"]})

    def ensures(self, a, out, aux):
        nevra = a["nevra"]
        has_colon = sym.contains(nevra, ":")
        matched = sym.matches(aux["pattern"], self._stripped({"nvra": nevra}))
        if out.kind == "raise":
            return {"refuses_only_missing_epoch_or_unparsable": Not(And(has_colon, matched)),
                    "refuses_with_ValueError": out.exc_cls is ValueError}
        m = aux["match"]
        res = out.value
        if m is None or not isinstance(res, tuple) or len(res) != 2:
            return {"returns_canonical_and_parts": False}
        canon, d = res
        g = m.groups
        absent = Or(is_none(g["epoch"]), eq(g["epoch"], ""))
        if absent is True:
            ep = 0
        elif absent is False:
            ep = sym.int_of_digits(g["epoch"])
        else:
            ep = If(absent, 0, sym.int_of_digits(sym.SV(sym.Val.VStr(sym.Val.s(g["epoch"].t)))))
        exp = sym.concat(g["name"], "-", sym.str_of_int(ep), ":", g["version"], "-", g["release"], ".", g["arch"])
        parts_ok = And(*[eq(dict_get(d, k), g[k]) if dict_get(d, k) is not KeyError else False
                         for k in ("name", "version", "release", "arch")])
        return {"accepts_only_with_epoch_and_match": And(has_colon, matched),
                "returns_canonical_and_parts": And(eq(canon, exp), parts_ok,
                                                   eq(dict_get(d, "epoch"), ep) if dict_get(d, "epoch") is not KeyError else False)}


V_NODASH = r"[0-9]+(\.[0-9]+)*|[^0-9\n@-][^\n@-]*"     # valid version free of '-' and '@' (C14 round-trip quantifier)


class CreateReleaseId(FnContract):
    """common.create_release_id: refuses (ValueError) precisely what the three predicates refuse, in that order;
    otherwise short-version for ga, short-version-type else, plus '@'+<base product id> iff bp_short is truthy."""
    MODULE, FUNC = "common", "create_release_id"
    PARAMS = ("short", "version", "type", "bp_short", "bp_version", "bp_type")
    SAMPLE_POOL = ["f", "fedora", "rhel", "a-b", "x1", "23", "7.1", "Rawhide", "1", "ga", "updates", "eus", "fast", "", None, "F", "a_b", ".x", "rawhide"]

    def requires(self, a):
        bp = a["bp_short"]
        return And(is_str(a["short"]), is_str(a["version"]), is_str(a["type"]),
                   Or(is_none(bp), is_str(bp)),
                   Implies(sym.truthy(bp), And(is_str(a["bp_version"]), is_str(a["bp_type"]))))

    def _valid(self, s, v, t):
        P = lambda n: _pattern_of(self.src, "common", n)
        return And(sym.matches(P("RELEASE_SHORT_RE"), s), sym.matches(P("RELEASE_VERSION_RE"), v),
                   sym.matches(P("RELEASE_TYPE_RE"), t))

    def _fmt(self, s, v, t):
        return If(eq(t, "ga"), sym.concat(s, "-", v), sym.concat(s, "-", v, "-", t)) if isinstance(eq(t, "ga"), bool) is False \
            else (sym.concat(s, "-", v) if eq(t, "ga") else sym.concat(s, "-", v, "-", t))

    def ensures(self, a, out, aux):
        ok_main = self._valid(a["short"], a["version"], a["type"])
        has_bp = sym.truthy(a["bp_short"])
        if has_bp is False:
            ok_bp = True
        else:
            ok_bp = Implies(has_bp, self._valid(a["bp_short"], a["bp_version"], a["bp_type"]))
        if out.kind == "raise":
            return {"refuses_only_invalid_parts": Not(And(ok_main, ok_bp)),
                    "refuses_with_ValueError": out.exc_cls is ValueError}
        main = self._fmt(a["short"], a["version"], a["type"])
        if has_bp is False:
            exp = main
        else:
            full = sym.concat(main, "@", self._fmt(a["bp_short"], a["bp_version"], a["bp_type"])) \
                if has_bp is True else None
            if full is None:
                bpv = lambda k: sym.SV(sym.Val.VStr(sym.Val.s(a[k].t))) if isinstance(a[k], sym.SV) else a[k]
                full = sym.concat(main, "@", self._fmt(bpv("bp_short"), bpv("bp_version"), bpv("bp_type")))
                exp = If(has_bp, full, main)
            else:
                exp = full
        return {"accepts_only_valid_parts": And(ok_main, ok_bp), "returns_documented_id": eq(out.value, exp)}


class RidRoundTrip(FnContract):
    """lemma over create_release_id and parse_release_id: parse(create(parts)) == parts for every accepted short,
    every valid version free of '-' and '@', a KNOWN release type, with or without base product."""
    MODULE, FUNC = "common", "parse_release_id"

    def __init__(self, src, T, rtype, bp_type=None, exclude_known=False):
        self.rtype = rtype
        self.bp_type = bp_type
        self.exclude_known = exclude_known
        self.PARAMS = ("short", "version") + (("bp_short", "bp_version") if bp_type else ())
        FnContract.__init__(self, src, T)
        self.key = "lemma:rid.roundtrip:%s:%s:%d" % (rtype, bp_type or "", int(exclude_known))
        self.name = "productmd.common.parse_release_id(create_release_id(..., %r%s))" % (
            rtype, (", bp_type=%r" % bp_type) if bp_type else "")

    def requires(self, a):
        from spec import languages as L
        r = [sym.in_lang(a["short"], L.L_SHORT), sym.in_lang(a["version"], V_NODASH)]
        if self.exclude_known and self.rtype == "ga":
            r.append(Not(sym.contains(a["short"], "-")))
        if self.bp_type:
            r += [sym.in_lang(a["bp_short"], L.L_SHORT), sym.in_lang(a["bp_version"], V_NODASH)]
            if self.exclude_known and self.bp_type == "ga":
                r.append(Not(sym.contains(a["bp_short"], "-")))
        return And(*r)

    def call(self, E, st):
        from pyvc.engine import FuncRef
        a = st["a"]
        create = FuncRef("common", self.src.funcs[("common", "create_release_id")])
        parse = FuncRef("common", self.src.funcs[("common", "parse_release_id")])
        args = [a["short"], a["version"], self.rtype]
        if self.bp_type:
            args += [a["bp_short"], a["bp_version"], self.bp_type]
        rid = E.call(create, args)
        st["rid"] = rid
        return E.call(parse, [rid])

    def native_fn(self):
        C = self.src.mods["common"]

        def f(*args):
            a = dict(zip(self.PARAMS, args))
            extra = [a["bp_short"], a["bp_version"], self.bp_type] if self.bp_type else []
            return C.parse_release_id(C.create_release_id(a["short"], a["version"], self.rtype, *extra))
        return f

    def ensures(self, a, out, aux):
        if out.kind == "raise":
            return {"parse_of_created_id_returns_the_parts": False}
        exp = {"short": a["short"], "version": a["version"], "type": self.rtype}
        if self.bp_type:
            exp.update({"bp_short": a["bp_short"], "bp_version": a["bp_version"], "bp_type": self.bp_type})
        d = out.value
        if dict_keys(d) != sorted(exp):
            return {"parse_of_created_id_returns_the_parts": False}
        return {"parse_of_created_id_returns_the_parts": And(*[eq(dict_get(d, k), v) for k, v in exp.items()])}

    def describe(self, inputs):
        return "parse_release_id(create_release_id(%s))" % ", ".join(
            [repr(inputs["short"]), repr(inputs["version"]), repr(self.rtype)] +
            ([repr(inputs["bp_short"]), repr(inputs["bp_version"]), repr(self.bp_type)] if self.bp_type else []))


def summary_check_nevra(src):
    """Rpms._check_nevra at call sites (contract CheckNevra, proved in C13/C12): ValueError unless the name has a ':' and the
    NVRA pattern matches; otherwise (canonical string, parts) over abstract match groups -- one path per outcome."""
    def summ(E, o, args, kwargs):
        from pyvc.engine import PyRaise, ExcVal, Unsupported
        from pyvc.models import SymMatch
        nevra = args[0]
        if not E.decide(is_str(nevra)):
            raise Unsupported("precondition of _check_nevra (str) not established at the call site")
        pat = _pattern_of(src, "common", "RPM_NVRA_RE")
        stripped = If(sym.endswith(nevra, ".rpm"), sym.drop_suffix(nevra, 4), nevra) if isinstance(nevra, sym.SV) else \
            (nevra[:-4] if nevra.endswith(".rpm") else nevra)
        if not E.decide(And(sym.contains(nevra, ":"), sym.matches(pat, stripped))):
            raise PyRaise(ExcVal(ValueError, ("Invalid N-E:V-R.A",)))
        m = SymMatch(pat, sym.sstr(stripped))
        d = E.models.sym_groupdict(m)
        g = m.groups
        absent = Or(is_none(g["epoch"]), eq(g["epoch"], ""))
        ep = If(absent, 0, sym.int_of_digits(sym.SV(sym.Val.VStr(sym.Val.s(g["epoch"].t)))))
        E.models.sd_set(d, "epoch", ep)
        canon = sym.concat(g["name"], "-", sym.str_of_int(ep), ":", g["version"], "-", g["release"], ".", g["arch"])
        return (canon, d)
    return summ


def summaries(src, T):
    return {(("rpms", "Rpms"), "_check_nevra"): summary_check_nevra(src)}


def contracts(src, T):
    out = [ParseNvra(src, T), RelativeTo(src, T), CheckNevra(src, T), CreateReleaseId(src, T)]
    for t in T.RELEASE_TYPES:
        for ex in (False, True):
            out.append(RidRoundTrip(src, T, t, None, ex))
            out.append(RidRoundTrip(src, T, t, 'ga' if t != 'ga' else 'updates', ex))
            out.append(RidRoundTrip(src, T, 'updates-testing' if t != 'updates-testing' else 'eus', t, ex))
    for fn, pat in (("is_valid_release_short", "RELEASE_SHORT_RE"), ("is_valid_release_version", "RELEASE_VERSION_RE"),
                    ("is_valid_release_type", "RELEASE_TYPE_RE")):
        out.append(IsValidPredicate(src, fn, pat, T))
    return out
