#!/usr/bin/env python3
"""Regenerates MANIFEST.json from props/registry.py (kept valid at all times)."""
import json, os, sys
sys.path.insert(0, os.path.dirname(os.path.abspath(__file__)))
from props.registry import CHECKS, NOT_APPLICABLE, ENGINES, NOTES

man = {
    "version": 1,
    "setup_cmd": "bin/setup.sh",
    "hooks": {
        "guard": "PRODUCTMD_VERIF",
        "enable": "none needed: contracts are sidecar files under /verif/contracts, the real sources are read through ast and "
                  "imported unmodified; the guard name is reserved and unused",
        "baseline_off_cmd": "cd /repo && /venv/bin/python -m pytest -q -p no:cacheprovider",
        "source_commits": [],
        "add_only": True,
    },
    "engines": ENGINES,
    "checks": [],
    "notes": NOTES,
    "not_applicable": NOT_APPLICABLE,
}
for c in CHECKS:
    pid = c["id"]
    man["checks"].append({
        "property_id": pid,
        "quick_cmd": "bin/vcheck %s --tier quick" % pid,
        "thorough_cmd": "bin/vcheck %s --tier thorough" % pid,
        "evidence_file": "evidence/%s.json" % pid,
        "replay_cmd_template": "bin/vcheck replay {path}",
        "engine": c.get("engine", "pyvc"),
        "level_claimed": {"category": c.get("category", "proof"), "text": c["text"], "design_ref": c.get("design_ref", "DESIGN.md section 8, " + pid)},
        "level_note": c["note"],
        "technique": c["technique"],
    })
with open(os.path.join(os.path.dirname(os.path.abspath(__file__)), "MANIFEST.json"), "w") as f:
    json.dump(man, f, indent=1)
    f.write("\n")
print("MANIFEST.json: %d checks, %d not_applicable" % (len(man["checks"]), len(man["not_applicable"])))
